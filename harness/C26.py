"""C26 - a failing notification handler never changes the protocol exchange; exceptions of
intervention handlers are turned into the documented failure responses / rejections.

1. `trigger_*`: the kernel `events.trigger` with handlers that raise under a symbolic mask.
2. `acse_*` / `scp_*`: the callers that must convert an intervention handler's exception
   (`ACSE._check_*`, `ACSE._negotiate_as_acceptor`, `Association._serve_request` -> service class SCP).
3. `differential_*`: the same interleaving of two real associations (vlib/stubs/cosim.py) executed
   twice inside one harness invocation - once with silent notification handlers, once with handlers
   raising under a symbolic mask - and compared byte for byte.
"""
from typing import List

from vlib.shim import *  # noqa: F401,F403
from vlib.h import harness, tier, shard
from vlib.stubs import cosim
from vlib import kf

import pynetdicom.association as assoc_mod
import pynetdicom.acse as acse_mod
from pynetdicom import AE, _config, build_context, evt
from pynetdicom.association import Association
from pynetdicom.dimse_primitives import C_ECHO, C_STORE
from pynetdicom.pdu_primitives import (A_ASSOCIATE, A_ABORT, A_RELEASE, UserIdentityNegotiation,
                                       SOPClassExtendedNegotiation, SOPClassCommonExtendedNegotiation,
                                       AsynchronousOperationsWindowNegotiation, MaximumLengthNotification,
                                       ImplementationClassUIDNotification)

import pynetdicom.service_class  # noqa: F401  (LOGGER created at import)

silence_loggers()

VERIFICATION = "1.2.840.10008.1.1"
CT = "1.2.840.10008.5.1.4.1.1.2"
NOTIFICATION = sorted(evt._NOTIFICATION_EVENTS, key=lambda e: e.name)
INTERVENTION = sorted(evt._INTERVENTION_EVENTS, key=lambda e: e.name)


class Boom(Exception):
    pass


class CallableObject:
    """A handler that is a callable object, not a function: it has no `__name__` (functools.partial
    objects and instances with __call__ are like this)."""

    def __init__(self, fn):
        self.fn = fn

    def __call__(self, *a):
        return self.fn(*a)


def _assoc(mode="acceptor"):
    saved = _config.LOG_HANDLER_LEVEL
    _config.LOG_HANDLER_LEVEL = "none"
    try:
        ae = AE()
        ae.add_supported_context(VERIFICATION)
        ae.add_supported_context(CT)
        return Association(ae, mode)
    finally:
        _config.LOG_HANDLER_LEVEL = saved


# ---------------------------------------------------------------------------------------------
# 1. the kernel
# ---------------------------------------------------------------------------------------------
NH = tier(3, 4)
EV_LO, EV_HI = shard("lo", 0), shard("hi", 17)


@harness(
    "C26",
    timeout=(120, 600),
    functions=["events:trigger", "events:_add_handler", "events:_remove_handler", "association:Association.bind",
               "association:Association.unbind"],
    bounds="every one of the 17 notification events; 1..%d handlers; one of them (symbolic index) unbinds itself - or the "
           "handler after it - while the event is being dispatched: the dispatch in progress still calls every handler that "
           "was bound when it started, once, in binding order" % NH,
    stubs=["real Association object (never started); handlers are recording closures"],
    outside="unbinding from another thread (pre-emption inside trigger)",
)
def trigger_unbind_during_dispatch(ev: int, n: int, who: int, target_next: bool) -> bool:
    """
    pre: 0 <= ev < 17
    pre: 1 <= n <= NH and 0 <= who < n
    post: _ == True
    """
    event = NOTIFICATION[ev]
    with untraced():
        assoc = _assoc()
    calls = []
    bound = {}

    def mk(i):
        def h(e):
            calls.append(i)
            if i == who:
                t = i + 1 if (target_next and i + 1 < n) else i
                assoc.unbind(event, bound[t])
        return h

    for i in range(n):
        bound[i] = mk(i)
        assoc.bind(event, bound[i])
    try:
        evt.trigger(assoc, event, {"k": 1})
    except Exception:
        return False
    if calls != list(range(n)):
        return False
    # a second dispatch no longer calls the handler that was unbound
    del calls[:]
    try:
        evt.trigger(assoc, event, {"k": 2})
    except Exception:
        return False
    gone = who + 1 if (target_next and who + 1 < n) else who
    return calls == [i for i in range(n) if i != gone]


@harness(
    "C26",
    timeout=(300, 600),
    shards=[{"lo": 0, "hi": 6}, {"lo": 6, "hi": 12}, {"lo": 12, "hi": 17}],
    functions=["events:trigger", "events:_add_handler", "events:Event.__init__", "association:Association.bind",
               "association:Association.get_handlers"],
    bounds="every one of the 17 notification events (enumerated; 3 shards); 0..%d handlers bound, each with or without extra args, each raising or not "
           "(symbolic mask); assoc.abort bound to the blocking or the non-blocking variant beforehand" % NH,
    stubs=["real Association object (never started); handlers are harness closures (or callable objects without __name__, "
           "symbolic choice) that record their invocation and raise `Boom` (an Exception subclass, with or without "
           "arguments) according to the mask"],
    findings=["C26-handler-without-name"],
    outside="handlers raising BaseException subclasses that are not Exceptions (KeyboardInterrupt, SystemExit)",
)
def trigger_notification(ev: int, raises: List[bool], with_args: List[bool], nonblocking_before: bool, as_object: bool,
                         bare_exc: bool) -> bool:
    """
    pre: EV_LO <= ev < EV_HI
    pre: len(raises) <= NH and len(with_args) == len(raises)
    pre: not kf.skip("C26-handler-without-name", raises=raises, as_object=as_object)
    post: _ == True
    """
    event = NOTIFICATION[ev]
    with untraced():
        assoc = _assoc()
    calls = []

    def mk(i):
        def h(ev, *extra):
            calls.append((i, ev.event is event, ev.assoc is assoc, extra))
            if raises[i]:
                if bare_exc:
                    raise Boom()         # an exception instance without arguments
                raise Boom(i)
        if as_object:
            return CallableObject(h)     # a handler that is a callable without __name__ (like functools.partial)
        return h

    for i in range(len(raises)):
        if with_args[i]:
            assoc.bind(event, mk(i), ["x", i])
        else:
            assoc.bind(event, mk(i))
    if nonblocking_before:
        assoc.abort = assoc._abort_nonblocking
    try:
        r = evt.trigger(assoc, event, {"k": 1})
    except Exception:
        return False                     # a notification handler's exception must never reach the caller
    ok = r is None
    # handlers run in binding order, each with its own extra args, up to and including the first that raises
    first = len(raises)
    for i in range(len(raises)):
        if raises[i]:
            first = i
            break
    expect = min(first + 1, len(raises))
    ok = ok and len(calls) == expect
    for j in range(len(calls)):
        i, ev_ok, assoc_ok, extra = calls[j]
        ok = ok and i == j and ev_ok and assoc_ok and extra == (("x", j) if with_args[j] else ())
    # afterwards abort() is the blocking implementation again (also after an exception)
    if len(raises) > 0:
        ok = ok and assoc.abort != assoc._abort_nonblocking
    return ok


@harness(
    "C26",
    timeout=(120, 600),
    functions=["events:trigger", "events:_add_handler"],
    bounds="every one of the 15 intervention events (enumerated); the bound handler returns a symbolic int or raises; with / without extra args; "
           "re-binding replaces the handler; abort() switched to the non-blocking variant beforehand or not",
    stubs=["real Association object (never started); handler is a harness closure"],
    outside="what the callers do with the exception (harnesses below)",
)
def trigger_intervention(ev: int, value: int, do_raise: bool, with_args: bool, rebind: bool, nonblocking_before: bool) -> bool:
    """
    pre: 0 <= ev < 15
    post: _ == True
    """
    event = INTERVENTION[ev]
    with untraced():
        assoc = _assoc()
    calls = []
    boom = Boom("x")

    def old(ev, *extra):
        calls.append("old")
        return -1

    def h(ev, *extra):
        calls.append(extra)
        if do_raise:
            raise boom
        return value

    if rebind:
        assoc.bind(event, old)
    if with_args:
        assoc.bind(event, h, ["a"])
    else:
        assoc.bind(event, h)
    if nonblocking_before:
        assoc.abort = assoc._abort_nonblocking       # what the callers do before triggering an intervention event
    try:
        r = evt.trigger(assoc, event, {"k": 1})
        ok = (not do_raise) and r == value
    except Boom as exc:
        # documented: the exception of an intervention handler is raised to the caller, which converts it
        ok = do_raise and exc is boom and assoc.abort != assoc._abort_nonblocking
    return ok and calls == [("a",) if with_args else ()]


# ---------------------------------------------------------------------------------------------
# 2. callers that convert intervention-handler exceptions
# ---------------------------------------------------------------------------------------------
class RecDUL:
    def __init__(self):
        self.sent = []
        self.alive = True

    def send_pdu(self, p):
        self.sent.append(p)

    def is_alive(self):
        return self.alive

    def stop_dul(self):
        self.alive = False
        return True

    def kill_dul(self):
        self.alive = False

    def peek_next_pdu(self):
        return None

    def receive_pdu(self, wait=False, timeout=None):
        return None


class RecDimse:
    def __init__(self):
        self.sent = []
        self.cancel_req = {}

    def send_msg(self, rsp, cx_id):
        self.sent.append((rsp, cx_id))

    def get_msg(self, block=False):
        return None, None


def _acceptor_with_request(user_id, sop_ext, common_ext, async_ops):
    """Acceptor association that has received an A-ASSOCIATE request carrying the chosen negotiation items."""
    assoc = _assoc("acceptor")
    assoc.dul = RecDUL()
    rq = A_ASSOCIATE()
    rq.application_context_name = "1.2.840.10008.3.1.1.1"
    rq.calling_ae_title = "SCU"
    rq.called_ae_title = "SCP"
    cx = build_context(VERIFICATION, "1.2.840.10008.1.2")
    cx.context_id = 1
    rq.presentation_context_definition_list = [cx]
    items = []
    ml = MaximumLengthNotification()
    ml.maximum_length_received = 16382
    items.append(ml)
    ic = ImplementationClassUIDNotification()
    ic.implementation_class_uid = "1.2.3.4"
    items.append(ic)
    if user_id:
        u = UserIdentityNegotiation()
        u.user_identity_type = 1
        u.primary_field = b"user"
        items.append(u)
    if sop_ext:
        s = SOPClassExtendedNegotiation()
        s.sop_class_uid = VERIFICATION
        s.service_class_application_information = b"\x01"
        items.append(s)
    if common_ext:
        c = SOPClassCommonExtendedNegotiation()
        c.sop_class_uid = VERIFICATION
        c.service_class_uid = "1.2.840.10008.4.2"
        items.append(c)
    if async_ops:
        a = AsynchronousOperationsWindowNegotiation()
        a.maximum_number_operations_invoked = 2
        a.maximum_number_operations_performed = 2
        items.append(a)
    rq.user_information = items
    assoc.requestor.primitive = rq
    assoc.acceptor.ae_title = "SCP"
    assoc.acceptor.maximum_length = 16382
    assoc.acceptor.implementation_class_uid = "1.2.3.5"
    assoc.acceptor.supported_contexts = [build_context(VERIFICATION)]
    return assoc


class _NoSleep:
    def sleep(self, s):
        return None

    def __getattr__(self, n):
        import time
        return getattr(time, n)


@harness(
    "C26",
    timeout=(150, 600),
    shards=[{"items": i} for i in range(16)],
    functions=["acse:ACSE._negotiate_as_acceptor", "acse:ACSE._check_user_identity", "acse:ACSE._check_sop_class_extended",
               "acse:ACSE._check_sop_class_common_extended", "acse:ACSE._check_async_ops", "acse:ACSE.send_accept",
               "acse:ACSE.send_reject", "events:trigger"],
    bounds="A-ASSOCIATE request with any subset (16 shards) of {user identity, SOP class extended, SOP class common extended, async ops} "
           "items; for each of the four intervention events: handler bound or default, raising or not; notification handlers "
           "for EVT_ACCEPTED / EVT_ESTABLISHED / EVT_REJECTED / EVT_ACSE_SENT raising or not",
    stubs=["real acceptor Association with a recording provider stand-in (send_pdu recorded); one requested/supported "
           "context (Verification); ae.active_associations is the real thread enumeration (empty)"],
    outside="values returned by non-raising handlers other than the fixed valid ones used here (C10/C13)",
)
def acse_acceptor_negotiation(bound: List[bool], raising: List[bool], notif_raise: bool) -> bool:
    """
    pre: len(bound) == 4 and len(raising) == 4
    post: _ == True
    """
    n = shard("items", 15)
    it = [bool(n & 1), bool(n & 2), bool(n & 4), bool(n & 8)]
    with untraced():
        assoc = _acceptor_with_request(it[0], it[1], it[2], it[3])
    seen = []

    def mk(i, ret):
        def h(ev):
            seen.append(i)
            if raising[i]:
                raise Boom(i)
            return ret
        return h

    events = [evt.EVT_USER_ID, evt.EVT_SOP_EXTENDED, evt.EVT_SOP_COMMON, evt.EVT_ASYNC_OPS]
    rets = [(True, None), {}, {}, (1, 1)]
    for i in range(4):
        if bound[i]:
            assoc.bind(events[i], mk(i, rets[i]))

    def noisy(ev):
        if notif_raise:
            raise Boom("n")

    for e in (evt.EVT_ACCEPTED, evt.EVT_ESTABLISHED, evt.EVT_REJECTED, evt.EVT_ACSE_SENT):
        assoc.bind(e, noisy)
    saved = assoc_mod.time
    assoc_mod.time = _NoSleep()
    try:
        try:
            assoc.acse.negotiate_association()
        except Exception:
            return False                 # no handler exception may escape the negotiation
        sent = assoc.dul.sent
        ok = len(sent) == 1 and isinstance(sent[0], A_ASSOCIATE)
        # documented conversion: an exception in a *bound* user-identity handler rejects the association
        # (transient, ACSE provider, no reason given); every other handler exception is logged and ignored
        reject = it[0] and bound[0] and raising[0]
        if reject:
            ok = ok and sent[0].result == 0x02 and sent[0].result_source == 0x02 and sent[0].diagnostic == 0x01
            ok = ok and assoc.is_rejected and not assoc.is_established
        else:
            ok = ok and sent[0].result == 0x00 and assoc.is_established and not assoc.is_rejected
            ok = ok and len(assoc.accepted_contexts) == 1
        ok = ok and assoc.abort != assoc._abort_nonblocking
        return ok
    finally:
        assoc_mod.time = saved


@harness(
    "C26",
    timeout=(150, 600),
    functions=["association:Association._serve_request", "service_class:VerificationServiceClass.SCP",
               "service_class:StorageServiceClass.SCP", "service_class:attempt.__exit__", "events:trigger"],
    bounds="C-ECHO or C-STORE request on an accepted context; the intervention handler raises or returns a symbolic status "
           "from {0x0000, 0xA700, 0xC001}; message id any 1..65535",
    stubs=["real acceptor Association; assoc.dimse replaced by a recorder of send_msg; C-STORE data set is an in-memory "
           "4-byte buffer that the raising handler never decodes"],
    outside="the other service classes (they use the same `attempt` context manager); data set decoding",
)
def scp_handler_exception(store: bool, do_raise: bool, status_idx: int, msg_id: int) -> bool:
    """
    pre: 0 <= status_idx <= 2
    pre: 1 <= msg_id <= 65535
    post: _ == True
    """
    is_store = True if store else False
    with untraced():
        from io import BytesIO
        assoc = _assoc("acceptor")
        assoc.dul = RecDUL()
        dimse = RecDimse()
        assoc.dimse = dimse
        uid = CT if is_store else VERIFICATION
        cx = build_context(uid, "1.2.840.10008.1.2")
        cx.context_id, cx.result, cx._as_scu, cx._as_scp = 1, 0, False, True
        assoc._accepted_cx = {1: cx}
        assoc.is_established = True
        if is_store:
            req = C_STORE()
            req.AffectedSOPClassUID = uid
            req.AffectedSOPInstanceUID = "1.2.3"
            req.Priority = 2
            req.DataSet = BytesIO(b"\x00\x00\x00\x00")
        else:
            req = C_ECHO()
            req.AffectedSOPClassUID = uid
    req.MessageID = msg_id
    status = 0x0000 if status_idx == 0 else (0xA700 if status_idx == 1 else 0xC001)

    def h(ev):
        if do_raise:
            raise Boom("scp")
        return status

    assoc.bind(evt.EVT_C_STORE if is_store else evt.EVT_C_ECHO, h)
    saved = assoc_mod.time
    assoc_mod.time = _NoSleep()
    try:
        try:
            assoc._serve_request(req, 1)
        except Exception:
            return False
        ok = len(dimse.sent) == 1 and len(assoc.dul.sent) == 0 and assoc.is_established and not assoc.is_aborted
        if not ok:
            return False
        rsp, cx_id = dimse.sent[0]
        ok = cx_id == 1 and rsp.MessageIDBeingRespondedTo == msg_id and assoc.abort != assoc._abort_nonblocking
        if do_raise:
            # documented: C-STORE -> failure status 0xC211; C-ECHO -> default status 0x0000
            ok = ok and rsp.Status == (0xC211 if is_store else 0x0000)
        else:
            ok = ok and rsp.Status == status
        return ok and not has_sentinel(str(rsp.Status))
    finally:
        assoc_mod.time = saved


# ---------------------------------------------------------------------------------------------
# 3. differential run on the two-sided co-simulation
# ---------------------------------------------------------------------------------------------
DIFF_SCEN = {
    "A-release": [("A", "release", 0)],
    "B-release": [("B", "release", 0)],
    "A-abort": [("A", "abort", 0)],
    "B-abort": [("B", "abort", 0)],
    "release-collision": [("A", "release", 0), ("B", "release", 5)],
    "release-vs-abort": [("A", "release", 0), ("B", "abort", 4)],
}
# upper bound on the number of handler invocations per scenario (measured: 21 / 13 / 37 / 14)
DIFF_NCALLS = {"A-release": 24, "B-release": 24, "A-abort": 16, "B-abort": 16, "release-collision": 40, "release-vs-abort": 20}
NMASK = tier(4, 6)
LD = tier(0, 1)


def Raiser(world, side):
    """One plain-function handler bound to every notification event of one side: records, then raises iff
    the mask says so for this (global) invocation number."""

    def handler(event):
        w = world
        k = len(w.calls)
        w.calls.append((side, event.event.name))
        if w.mask is not None and w.start <= k and k - w.start < len(w.mask) and w.mask[k - w.start]:
            raise Boom(k)

    return handler


class World:
    def __init__(self, mask, start):
        self.mask, self.start, self.calls = mask, start, []


def _diff_run(scen, schedule, mask, start):
    with cosim.installed():
        with untraced():
            w = World(mask, start)
            ha = [(e, Raiser(w, "A")) for e in NOTIFICATION]
            hb = [(e, Raiser(w, "B")) for e in NOTIFICATION]
            sim = cosim.Sim(budget=400, handlers_a=ha, handlers_b=hb)
            for (side, action, at) in DIFF_SCEN[scen]:
                sim.add_user(side, action, at)
        sim.schedule = list(schedule)
        done = sim.drain()
        with untraced():
            obs = {
                "done": done,
                "wire_ab": list(sim.ab.log), "wire_ba": list(sim.ba.log),
                "closed": (sim.ab.closed, sim.ba.closed, sim.A.raw.closed, sim.B.raw.closed),
                "trace": list(sim.trace),
                "calls": list(w.calls),
                "crash": [repr(t.crash) for t in sim.threads if t.crash],
            }
            for n, s in (("A", sim.A), ("B", sim.B)):
                a = s.assoc
                obs[n] = (a.is_released, a.is_aborted, a.is_established, a.is_rejected, a._kill, s.state(), tuple(s.events),
                          a.dul.to_user_queue.qsize(), a.dul.to_provider_queue.qsize(), a.dul.event_queue.qsize(),
                          a.abort != a._abort_nonblocking)
            sim.close()
    return obs


@harness(
    "C26",
    timeout=(200, 3000),
    shards=[{"scen": s, "start": st} for s in DIFF_SCEN for st in range(0, DIFF_NCALLS[s], NMASK)],
    functions=["events:trigger", "dul:DULServiceProvider.run_reactor", "dul:DULServiceProvider._decode_pdu",
               "dul:DULServiceProvider._send", "dul:DULServiceProvider.send_pdu", "dul:DULServiceProvider.receive_pdu",
               "transport:AssociationSocket.send", "fsm:StateMachine.do_action", "association:Association._run_reactor",
               "association:Association.release", "association:Association.abort", "acse:ACSE.negotiate_release"],
    bounds="per scenario (shard: who releases / aborts, release collision, release vs abort): handlers bound to all 17 "
           "notification events on both sides; the invocations number start..start+%d-1 (shard: start, windows cover every "
           "invocation of the run) raise according to a symbolic mask, all others are silent; schedule prefix of length <= %d over the 6 threads" % (NMASK, LD),
    stubs=["vlib/stubs/cosim.py co-simulation (see C06): two established associations, pipe-pair sockets, greenlet threads; "
           "the run is executed twice in one harness execution: all handlers silent, then handlers raising under the mask"],
    outside="events that only occur during association negotiation or DIMSE traffic in this two-sided run (covered for the "
            "acceptor negotiation by acse_acceptor_negotiation); handlers that call abort()/release() themselves",
)
def differential_cosim(schedule: List[int], mask: List[bool]) -> bool:
    """
    pre: len(schedule) <= LD and all(0 <= c < 6 for c in schedule)
    pre: len(mask) == NMASK
    post: _ == True
    """
    scen, start = shard("scen", "A-release"), shard("start", 0)
    quiet = _diff_run(scen, schedule, None, start)
    noisy = _diff_run(scen, schedule, mask, start)
    if not quiet["done"] or quiet["crash"]:
        # (the reference run itself must be a complete, orderly termination; release collisions that hit the
        # C06 known finding are not used as a reference)
        out_of_bounds()
    same = True
    for k in ("done", "wire_ab", "wire_ba", "closed", "trace", "calls", "crash", "A", "B"):
        same = same and quiet[k] == noisy[k]
    return same and not has_sentinel(noisy["wire_ab"]) and not has_sentinel(noisy["wire_ba"])


# ---------------------------------------------------------------------------------------------
# end-to-end reproducer for trigger_notification counterexamples (two real AEs on localhost, no stub)
# ---------------------------------------------------------------------------------------------
def _e2e_handler_without_name(args, shard_):
    import functools

    if not (args.get("as_object") and any(args.get("raises", []))):
        return None, "not a callable-object counterexample"

    def boom(tag, event):
        raise ValueError(tag)

    ae = AE()
    ae.add_supported_context(VERIFICATION)
    ae.add_requested_context(VERIFICATION)
    ae.acse_timeout = ae.dimse_timeout = ae.network_timeout = 3
    srv = ae.start_server(("127.0.0.1", 0), block=False)
    try:
        port = srv.socket.getsockname()[1]
        out = []
        for h in (lambda e: boom("function", e), functools.partial(boom, "partial")):
            assoc = ae.associate("127.0.0.1", port, evt_handlers=[(evt.EVT_PDU_RECV, h)])
            if assoc.is_established:
                assoc.send_c_echo()
                assoc.release()
            out.append((assoc.is_released, assoc.is_aborted))
    finally:
        srv.shutdown()
    return out[0] != out[1], ("association with a raising plain-function EVT_PDU_RECV handler: released=%s aborted=%s; with the same "
                              "handler wrapped in functools.partial: released=%s aborted=%s" % (out[0] + out[1]))


from vlib.h import REGISTRY  # noqa: E402

if "trigger_notification" in REGISTRY:
    REGISTRY["trigger_notification"].e2e = _e2e_handler_without_name
