"""C10 - acceptor-side presentation context negotiation follows PS3.8 and the role table.

Real code: presentation.negotiate_as_acceptor / negotiate_unrestricted / SCP_SCU_ROLES / PresentationContext,
ACSE._negotiate_as_acceptor (mode selection, role-dict construction, accepted/rejected bookkeeping).
Oracle: spec/ps37_roles.py (documented role table row by row AND PS3.7 D.3.3.4 as a formula, PS3.8 result/reason
rules, documented transfer-syntax preference).  Booleans are solver-symbolic; abstract / transfer syntaxes are
indices into small pools (pydicom's UID realises strings).

Every harness returns True, or a short string that says which part of the property failed (any value other than
True is a counterexample for the driver).
"""
from typing import List

from vlib.shim import *  # noqa: F401,F403
from vlib.h import harness, tier, shard
from vlib import kf

from pynetdicom import _config
from pynetdicom.presentation import PresentationContext, negotiate_as_acceptor, negotiate_unrestricted
from pynetdicom.pdu_primitives import SCP_SCU_RoleSelectionNegotiation

silence_loggers()

from spec import ps37_roles as S  # noqa: E402

# pools ------------------------------------------------------------------------------------------------------
AB = ["1.2.840.10008.1.1", "1.2.840.10008.5.1.4.1.1.2", "1.2.840.10008.5.1.4.1.1.4"]
TS = ["1.2.840.10008.1.2", "1.2.840.10008.1.2.1", "1.2.840.10008.1.2.2"]
# pool for the unrestricted-storage mode, with the classification PS3.4 gives (independent of pynetdicom):
#   CT Image Storage (PS3.4 B.5: Storage service class), Verification (PS3.4 A.4: not storage),
#   Patient Root Q/R Find (PS3.4 C: not storage), a private root, an unassigned UID under the DICOM root.
UAB = [
    ("1.2.840.10008.5.1.4.1.1.2", True),        # storage
    ("1.2.840.10008.1.1", False),               # Verification
    ("1.2.840.10008.5.1.4.1.2.1.1", False),     # Patient Root Query/Retrieve Information Model - FIND
    ("1.2.826.0.1.3680043.9.3811.9.9", True),   # private root  -> treated as storage
    ("1.2.840.10008.5.1.4.1.1.9999", True),     # unknown public -> treated as storage
    ("1.2.840.10008.5.1.4.1.1.6", True),        # Ultrasound Image Storage (Retired): a storage SOP class (PS3.4 B.5 of
                                                #   earlier editions, still in PS3.6) that has a name in pydicom's UID
                                                #   dictionary but no class in pynetdicom.sop_class
]


def _storage_like(uid):
    for u, s in UAB:
        if u == uid:
            return s
    raise KeyError(uid)


def _opt(is_set, value):
    """(is_set, value) -> None / True / False   (keeps both parts solver-symbolic)"""
    if not is_set:
        return None
    return True if value else False


def _cx(cid, ab, tss, scu=None, scp=None):
    cx = PresentationContext()
    cx.context_id = cid
    cx.abstract_syntax = ab
    cx.transfer_syntax = list(tss)
    cx.scu_role = scu
    cx.scp_role = scp
    return cx


def _sub(flags, pool, reverse=False):
    out = [pool[i] for i in range(len(pool)) if flags[i]]
    if reverse:
        out.reverse()
    return out


def compare(proposed, supported, roles, got, unrestricted=False, outcome=S.formula_outcome):
    """Compare the implementation's (result contexts, role items) with the oracle.  True or a reason string."""
    result, rroles = got
    exp, exp_replies = S.negotiate(proposed, supported, roles, unrestricted=unrestricted,
                                   storage_like=_storage_like, outcome=outcome)
    # exactly one result per proposed context id, with the proposed abstract syntax
    if len(result) != len(exp):
        return "number of results %d != number of proposed contexts %d" % (len(result), len(exp))
    for e in exp:
        hits = [r for r in result if r.context_id == e["id"]]
        if len(hits) != 1:
            return "context id %r has %d results" % (e["id"], len(hits))
        r = hits[0]
        if r.abstract_syntax != e["abstract_syntax"]:
            return "result for id %r carries abstract syntax %r" % (e["id"], r.abstract_syntax)
        if r.result != e["result"]:
            return "id %r: result %r, expected %r" % (e["id"], r.result, e["result"])
        if e["result"] == S.ACCEPTANCE:
            if len(r.transfer_syntax) != 1:
                return "id %r: accepted with %d transfer syntaxes" % (e["id"], len(r.transfer_syntax))
            if "transfer_syntax_any_of" in e:
                if r.transfer_syntax[0] not in e["transfer_syntax_any_of"]:
                    return "id %r: accepted transfer syntax was not proposed" % (e["id"],)
            elif r.transfer_syntax[0] != e["transfer_syntax"]:
                return "id %r: transfer syntax %r, expected %r" % (e["id"], r.transfer_syntax[0], e["transfer_syntax"])
            if r.as_scu != e["as_scu"]:
                return "id %r: acceptor as_scu %r, expected %r" % (e["id"], r.as_scu, e["as_scu"])
            if r.as_scp != e["as_scp"]:
                return "id %r: acceptor as_scp %r, expected %r" % (e["id"], r.as_scp, e["as_scp"])
            if not (r.as_scu or r.as_scp):
                return "id %r: accepted with no usable role" % (e["id"],)
    # role replies: one item per abstract syntax, exactly the expected ones
    got_replies = {}
    for item in rroles:
        if item.sop_class_uid in got_replies:
            return "two role replies for %r" % (item.sop_class_uid,)
        got_replies[item.sop_class_uid] = (item.scu_role, item.scp_role)
    if sorted(got_replies) != sorted(exp_replies):
        return "role replies for %r, expected for %r" % (sorted(got_replies), sorted(exp_replies))
    for k in exp_replies:
        if got_replies[k] != exp_replies[k]:
            return "role reply for %r is %r, expected %r" % (k, got_replies[k], exp_replies[k])
        # never grants a role the requestor did not propose
        if (got_replies[k][0] and not roles[k][0]) or (got_replies[k][1] and not roles[k][1]):
            return "role reply grants a role that was not proposed"
    return True


# ------------------------------------------------------------------------------------------------------------
@harness(
    "C10", timeout=(120, 600),
    functions=["presentation:negotiate_as_acceptor", "presentation:SCP_SCU_ROLES",
               "presentation:PresentationContext.scu_role", "presentation:PresentationContext.scp_role"],
    bounds="one proposed context whose abstract syntax is supported with a common transfer syntax; role item "
           "present or not, both proposed flags, both acceptor settings in {None, True, False}: all 2*2*2*3*3 "
           "combinations, every flag solver-symbolic; compared with the documented table AND with PS3.7 D.3.3.4",
    stubs=["abstract/transfer syntax UIDs are fixed pool members (pydicom UID realises strings)"],
    outside="interaction of roles with transfer-syntax matching (harnesses acceptor_structure and, thorough tier, acceptor_product)",
)
def acceptor_roles(has_role: bool, rq_scu: bool, rq_scp: bool, scu_set: bool, cfg_scu: bool, scp_set: bool,
                   cfg_scp: bool) -> bool:
    """
    post: _ == True
    """
    c_scu, c_scp = _opt(scu_set, cfg_scu), _opt(scp_set, cfg_scp)
    p_scu, p_scp = (True if rq_scu else False), (True if rq_scp else False)
    proposed = [(1, AB[1], [TS[0], TS[1]])]
    supported = [(AB[1], [TS[1]], c_scu, c_scp)]
    roles = {AB[1]: (p_scu, p_scp)} if has_role else {}
    got = negotiate_as_acceptor([_cx(1, AB[1], [TS[0], TS[1]])], [_cx(None, AB[1], [TS[1]], c_scu, c_scp)],
                                dict(roles))
    r = compare(proposed, supported, roles, got, outcome=S.table_outcome)
    if r is not True:
        return "table: " + r
    r = compare(proposed, supported, roles, got, outcome=S.formula_outcome)
    if r is not True:
        return "PS3.7 D.3.3.4: " + r
    return True


@harness(
    "C10", timeout=(120, 600),
    functions=["presentation:negotiate_as_acceptor", "presentation:PresentationContext.transfer_syntax"],
    bounds="one proposed context; abstract syntax supported or not; every non-empty subset of a pool of 3 transfer "
           "syntaxes proposed (either order) x every non-empty subset supported (either order of preference)",
    stubs=["abstract/transfer syntax UIDs are fixed pool members"],
    outside="transfer-syntax pools larger than 3",
)
def acceptor_transfer_syntax(same_ab: bool, r0: bool, r1: bool, r2: bool, a0: bool, a1: bool, a2: bool,
                             rq_rev: bool, ac_rev: bool) -> bool:
    """
    pre: r0 or r1 or r2
    pre: a0 or a1 or a2
    post: _ == True
    """
    rts = _sub([r0, r1, r2], TS, rq_rev)
    ats = _sub([a0, a1, a2], TS, ac_rev)
    ab_ac = AB[1] if same_ab else AB[2]
    got = negotiate_as_acceptor([_cx(3, AB[1], rts)], [_cx(None, ab_ac, ats)], {})
    return compare([(3, AB[1], rts)], [(ab_ac, ats, None, None)], {}, got)


# ------------------------------------------------------------------------------------------------------------
N3_NARROW = tier(True, False)   # quick: the 3-context shards fix the transfer-syntax lists and omit the role item


def _distinct(xs):
    return all(xs[i] != xs[j] for i in range(len(xs)) for j in range(i + 1, len(xs)))


def _structure_shards():
    out = [{"n": 0}, {"n": 1}] + [{"n": 2, "a0": a, "a1": b} for a in range(3) for b in range(3)]
    if N3_NARROW:
        out += [{"n": 3, "a0": a, "a1": b} for a in range(3) for b in range(3)]
    else:
        out += [{"n": 3, "a0": a, "a1": b, "a2": c} for a in range(3) for b in range(3) for c in range(3)]
    return out


def _structure_pre(ab, wide, has_role):
    for i, name in enumerate(("a0", "a1", "a2")):
        if shard(name) is not None and len(ab) > i and ab[i] != shard(name):
            return False
    if shard("n", 2) == 3 and N3_NARROW and (has_role or not all(wide)):
        return False
    return True


@harness(
    "C10", timeout=(170, 900),
    functions=["presentation:negotiate_as_acceptor", "presentation:PresentationContext.context_id"],
    bounds="n = 0..3 proposed contexts (sharded by n and, for n >= 2, by the leading abstract syntaxes) with ANY distinct "
           "odd context ids 1..255 (solver-symbolic, in any order), each with any abstract syntax of a pool of 3 "
           "(repeats allowed) and one of two transfer-syntax lists; 0..2 supported contexts (presence symbolic) with "
           "different transfer-syntax preferences; optional role item for a repeated abstract syntax"
           + ("; quick tier: for n = 3 the transfer-syntax lists are fixed and no role item is sent" if N3_NARROW else ""),
    stubs=["abstract/transfer syntax UIDs are fixed pool members",
           "validity predicate of the proposal (PS3.8 9.3.2.2): context ids are odd, 1..255 and distinct"],
    outside="more than 3 proposed contexts (the 128 limit is C12's); duplicate context ids (non-conformant peer); the "
            "order of the returned list (not part of the property)",
    shards=_structure_shards,
)
def acceptor_structure(k: List[int], ab: List[int], wide: List[bool], sup0: bool, sup1: bool, has_role: bool,
                       rq_scp: bool) -> bool:
    """
    pre: len(k) == shard("n", 2) and len(ab) == len(k) and len(wide) == len(k)
    pre: all(0 <= x <= 127 for x in k) and _distinct(k)
    pre: all(0 <= a <= 2 for a in ab)
    pre: _structure_pre(ab, wide, has_role)
    post: _ == True
    """
    proposed, rq = [], []
    for i in range(len(k)):
        cid = 2 * k[i] + 1
        a = AB[ab[i]]
        tss = [TS[0], TS[1]] if wide[i] else [TS[2]]
        proposed.append((cid, a, tss))
        rq.append(_cx(cid, a, tss))
    supported, ac = [], []
    if sup0:
        supported.append((AB[0], [TS[1], TS[0]], True, True))
        ac.append(_cx(None, AB[0], [TS[1], TS[0]], True, True))
    if sup1:
        supported.append((AB[1], [TS[2]], None, None))
        ac.append(_cx(None, AB[1], [TS[2]]))
    roles = {AB[0]: (True, True if rq_scp else False)} if has_role else {}
    got = negotiate_as_acceptor(rq, ac, dict(roles))
    return compare(proposed, supported, roles, got)


# ------------------------------------------------------------------------------------------------------------
@harness(
    "C10", timeout=(170, 900),
    functions=["presentation:negotiate_unrestricted", "presentation:negotiate_as_acceptor", "presentation:SCP_SCU_ROLES"],
    bounds="unrestricted-storage negotiation of two proposed contexts (ids 5 and 1) whose abstract syntaxes are any of a "
           "pool of 5 (storage, two non-storage, private root, unassigned DICOM-root UID; one shard per first abstract syntax), first context with one of two "
           "transfer-syntax lists; the first abstract syntax optionally also configured as supported (other transfer "
           "syntax, roles None or (True, True)); optional role items (same two symbolic flags) for both abstract syntaxes",
    stubs=["abstract/transfer syntax UIDs are fixed pool members",
           "classification storage / not storage of the 5 pool members is written down from PS3.4 in the harness"],
    outside="pools larger than 5; more than two contexts in this mode",
    findings=["C10-unrestricted-default-role", "C10-unrestricted-no-role"],
    shards=[{"u1": u} for u in range(len(UAB))],
)
def acceptor_unrestricted(u1: int, u2: int, wide: bool, in_supported: bool, cfg_set: bool, has_role: bool,
                          rq_scu: bool, rq_scp: bool) -> bool:
    """
    pre: 0 <= u1 <= 5 and 0 <= u2 <= 5
    pre: shard("u1") is None or u1 == shard("u1")
    pre: not kf.skip("C10-unrestricted-default-role", u1=u1, u2=u2, has_role=has_role, rq_scu=rq_scu, rq_scp=rq_scp)
    pre: not kf.skip("C10-unrestricted-no-role", u1=u1, u2=u2, has_role=has_role, rq_scu=rq_scu, rq_scp=rq_scp)
    post: _ == True
    """
    a1, a2 = UAB[u1][0], UAB[u2][0]
    tss = [TS[0], TS[1]] if wide else [TS[2]]
    proposed = [(5, a1, tss), (1, a2, [TS[0]])]
    rq = [_cx(5, a1, tss), _cx(1, a2, [TS[0]])]
    supported, ac = [], []
    if in_supported:
        cfg = True if cfg_set else None
        supported.append((a1, [TS[1]], cfg, cfg))
        ac.append(_cx(None, a1, [TS[1]], cfg, cfg))
    flags = (True if rq_scu else False, True if rq_scp else False)
    roles = {a1: flags, a2: flags} if has_role else {}
    got = negotiate_unrestricted(rq, ac, dict(roles))
    return compare(proposed, supported, roles, got, unrestricted=True)


# ------------------------------------------------------------------------------------------------------------
# ACSE level: mode selection, role-dict construction from the request's role items, accepted/rejected bookkeeping
from pynetdicom import AE  # noqa: E402
from pynetdicom import acse as acse_mod  # noqa: E402
from pynetdicom._globals import MODE_ACCEPTOR  # noqa: E402
from pynetdicom.association import Association  # noqa: E402
from pynetdicom.pdu_primitives import (  # noqa: E402
    A_ASSOCIATE, ImplementationClassUIDNotification, MaximumLengthNotification)

from vlib.stubs.loopback import attach_fake_dul  # noqa: E402

silence_loggers()


def _request(contexts, role_items):
    p = A_ASSOCIATE()
    p.application_context_name = "1.2.840.10008.3.1.1.1"
    p.calling_ae_title = "RQ"
    p.called_ae_title = "AC"
    p.presentation_context_definition_list = contexts
    ml = MaximumLengthNotification()
    ml.maximum_length_received = 16382
    ic = ImplementationClassUIDNotification()
    ic.implementation_class_uid = "1.2.3.4"
    p.user_information = [ml, ic] + role_items
    return p


def _role_item(uid, scu, scp):
    it = SCP_SCU_RoleSelectionNegotiation()
    it.sop_class_uid = uid
    it.scu_role = scu
    it.scp_role = scp
    return it


@harness(
    "C10", timeout=(170, 900),
    functions=["acse:ACSE._negotiate_as_acceptor", "acse:ACSE.send_accept", "presentation:negotiate_as_acceptor",
               "presentation:negotiate_unrestricted", "association:ServiceUser.role_selection",
               "association:Association.accepted_contexts", "association:Association.rejected_contexts"],
    bounds="real acceptor Association (threads never started) receiving a request with two contexts (ids 1 and 3): first "
           "abstract syntax any of the pool of 5, second Verification; UNRESTRICTED_STORAGE_SERVICE "
           "on/off (one shard per abstract syntax, mode and scu_role set / None); first abstract syntax supported or not with role settings in {None, True, False}^2; role "
           "item for it present or not with both flags symbolic",
    stubs=["FakeDUL records the A-ASSOCIATE response primitive instead of the DUL (vlib/stubs/loopback.py)",
           "AE(), Association() and the untouched parts of the request primitive are built untraced (concrete)",
           "_config.UNRESTRICTED_STORAGE_SERVICE is set for the call and restored",
           "abstract/transfer syntax UIDs are fixed pool members"],
    outside="AE-title / user-identity / association-limit checks (C13, C14); the wire encoding of the response (C11, C12)",
    shards=[{"u": u, "unr": m, "ss": r} for u in range(len(UAB)) for m in (0, 1) for r in (0, 1)],
    findings=["C10-unrestricted-default-role-acse", "C10-unrestricted-no-role-acse"],
)
def acceptor_acse(unrestricted: bool, in_supported: bool, scu_set: bool, cfg_scu: bool, scp_set: bool, cfg_scp: bool,
                  has_role: bool, rq_scu: bool, rq_scp: bool) -> bool:
    """
    pre: unrestricted == (shard("unr", 1) == 1)
    pre: shard("ss") is None or scu_set == (shard("ss") == 1)
    pre: not kf.skip("C10-unrestricted-default-role-acse", unrestricted=unrestricted, has_role=has_role, rq_scu=rq_scu, rq_scp=rq_scp)
    pre: not kf.skip("C10-unrestricted-no-role-acse", unrestricted=unrestricted, has_role=has_role, rq_scu=rq_scu, rq_scp=rq_scp)
    post: _ == True
    """
    u = shard("u", 0)
    a1, a2 = UAB[u][0], UAB[1][0]
    with untraced():
        ae = AE(ae_title="AC")
        assoc = Association(ae, MODE_ACCEPTOR)
        dul = attach_fake_dul(assoc)
        assoc.acceptor.ae_title = "AC"
    c_scu, c_scp = _opt(scu_set, cfg_scu), _opt(scp_set, cfg_scp)
    flags = (True if rq_scu else False, True if rq_scp else False)
    proposed = [(1, a1, [TS[0], TS[1]]), (3, a2, [TS[0]])]
    supported, ac = [(a2, [TS[0]], None, None)], [_cx(None, a2, [TS[0]])]
    if in_supported:
        supported.append((a1, [TS[1]], c_scu, c_scp))
        ac.append(_cx(None, a1, [TS[1]], c_scu, c_scp))
    if a1 == a2:       # the acceptor's supported abstract syntaxes are unique (AE.add_supported_context)
        supported, ac = supported[-1:], ac[-1:]
    roles = {a1: flags} if has_role else {}
    items = [_role_item(a1, flags[0], flags[1])] if has_role else []
    assoc.acceptor.supported_contexts = ac
    assoc.requestor.primitive = _request([_cx(1, a1, [TS[0], TS[1]]), _cx(3, a2, [TS[0]])], items)
    saved = _config.UNRESTRICTED_STORAGE_SERVICE
    _config.UNRESTRICTED_STORAGE_SERVICE = True if unrestricted else False
    try:
        assoc.acse._negotiate_as_acceptor()
    finally:
        _config.UNRESTRICTED_STORAGE_SERVICE = saved
    if len(dul.sent) != 1:
        return "%d primitives sent" % len(dul.sent)
    rsp = dul.sent[0]
    if not isinstance(rsp, A_ASSOCIATE) or rsp.result != 0 or not assoc.is_established:
        return "association not accepted"
    reply_items = [i for i in rsp.user_information if isinstance(i, SCP_SCU_RoleSelectionNegotiation)]
    r = compare(proposed, supported, roles, (rsp.presentation_context_definition_results_list, reply_items),
                unrestricted=(True if unrestricted else False))
    if r is not True:
        return "response: " + r
    # the association's own view = the response
    acc = assoc.accepted_contexts
    rej = assoc.rejected_contexts
    if any(c.result != 0 for c in acc) or any(c.result == 0 for c in rej):
        return "accepted/rejected bookkeeping mixes results"
    r = compare(proposed, supported, roles, (acc + rej, reply_items), unrestricted=(True if unrestricted else False))
    if r is not True:
        return "assoc.accepted_contexts/rejected_contexts: " + r
    return True


# ------------------------------------------------------------------------------------------------------------
# thorough tier: the product of the concerns that the quick tier varies one at a time
@harness(
    "C10", timeout=(170, 900), tiers=("thorough",),
    functions=["presentation:negotiate_as_acceptor", "presentation:SCP_SCU_ROLES"],
    bounds="product: one proposed context x (abstract syntax supported or not) x every non-empty proposed subset of 3 transfer "
           "syntaxes (one shard each) x every non-empty supported subset in either order x role item present or not x both "
           "proposed flags x acceptor settings in {None, True, False}^2",
    stubs=["abstract/transfer syntax UIDs are fixed pool members"],
    outside="pools larger than 3",
    shards=[{"r": m} for m in range(1, 8)],
)
def acceptor_product(same_ab: bool, a0: bool, a1: bool, a2: bool, ac_rev: bool, has_role: bool, rq_scu: bool,
                     rq_scp: bool, scu_set: bool, cfg_scu: bool, scp_set: bool, cfg_scp: bool) -> bool:
    """
    pre: a0 or a1 or a2
    post: _ == True
    """
    m = shard("r", 7)
    rts = [TS[i] for i in range(3) if (m >> i) & 1]
    ats = _sub([a0, a1, a2], TS, ac_rev)
    ab_ac = AB[1] if same_ab else AB[2]
    c_scu, c_scp = _opt(scu_set, cfg_scu), _opt(scp_set, cfg_scp)
    roles = {}
    if has_role:
        roles[AB[1]] = (True if rq_scu else False, True if rq_scp else False)
    got = negotiate_as_acceptor([_cx(7, AB[1], rts)], [_cx(None, ab_ac, ats, c_scu, c_scp)], dict(roles))
    r = compare([(7, AB[1], rts)], [(ab_ac, ats, c_scu, c_scp)], roles, got, outcome=S.table_outcome)
    if r is not True:
        return "table: " + r
    return compare([(7, AB[1], rts)], [(ab_ac, ats, c_scu, c_scp)], roles, got, outcome=S.formula_outcome)
