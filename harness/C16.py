"""C16 - every DIMSE message pynetdicom sends is completely receivable by its peer.

"A message's command set says a data set follows exactly when pynetdicom actually sends data-set fragments
for it, so the receiving side always completes the message and hands it to the service layer."

Real code: DIMSEServiceProvider.send_msg, DIMSEMessage.primitive_to_message / encode_msg /
_generate_pdv_fragments / decode_msg / message_to_primitive, DIMSEServiceProvider.receive_primitive,
P_DATA_TF encode/decode, and (api_receivable) the public Association.send_c_* / send_n_* methods; two real
Associations joined by vlib.stubs.wire16.Loopback.

Oracle: spec/ps37_dimse.py (Command Data Set Type semantics of PS3.7 Table E.1-1, independent parser of the
Implicit VR Little Endian command set that was sent).
"""
import os

from vlib.shim import *  # noqa: F401,F403
from vlib.h import harness, tier, shard
from vlib import kf

from pydicom.dataset import Dataset

from spec import ps37_dimse as spec
from vlib.stubs.pybuf import PyBytesIO
from vlib.stubs import wire16
from vlib.stubs.wire16 import Loopback, build_primitive

import pynetdicom.dimse_messages as dm

silence_loggers()

NDS = tier(2, 4)          # data-set bytes
CID = 1


class _FileOver:
    """binary file object over a bytes value (the file-backed C-STORE data set).  Positions are kept as
    concrete ints (`length` is the concrete length of `content` on this path) so that encode_msg's own
    float arithmetic runs on concrete numbers."""

    def __init__(self, content, length):
        self.content, self.length, self.pos = content, length, 0

    def __enter__(self):
        return self

    def __exit__(self, *a):
        return False

    def seek(self, off, whence=0):
        self.pos = off if whence == 0 else (self.pos + off if whence == 1 else self.length + off)
        return self.pos

    def read(self, size=-1):
        end = self.length if size is None or size < 0 else min(self.length, self.pos + size)
        out = self.content[self.pos:end]
        self.pos = max(self.pos, end)
        return out


def _concrete_len(b, bound):
    """len(b) as a concrete int (one path per length; len(b) <= bound by precondition)"""
    for k in range(bound + 1):
        if len(b) == k:
            return k
    out_of_bounds()


def _split_messages(pdvs):
    """group the PDVs sent on a wire into messages: command fragments up to the one marked last (03), then the
    data-set fragments that directly follow, up to and including the first one marked last (02).
    None if the control headers are not of the form (01* 03 (00* 02)?)*  (PS3.8 Annex E)"""
    msgs = []
    i = 0
    while i < len(pdvs):
        cmd, data = b"", []
        while i < len(pdvs) and pdvs[i][1] == 1:
            cmd = cmd + pdvs[i][2]
            i += 1
        if i >= len(pdvs) or pdvs[i][1] != 3:
            return None
        cid = pdvs[i][0]
        cmd = cmd + pdvs[i][2]
        i += 1
        if i < len(pdvs) and pdvs[i][1] in (0, 2):
            while i < len(pdvs) and pdvs[i][1] == 0:
                data.append(pdvs[i])
                i += 1
            if i >= len(pdvs) or pdvs[i][1] != 2:
                return None
            data.append(pdvs[i])
            i += 1
        msgs.append((cid, cmd, data))
    return msgs


def _judge(lb, wire, receiver, expect_context, n_messages=1):
    """the property's assertion on the message(s) sent over `wire` to `receiver`"""
    msgs = _split_messages(wire.pdvs)
    if msgs is None or len(msgs) != n_messages:
        return False
    for cid, cmd, data in msgs:
        if has_sentinel(cmd):
            return False                               # a formatted symbolic number leaked into the command set
        try:
            announced = spec.says_data_set_follows(cmd)
        except ValueError:
            return False
        if announced != (len(data) > 0):
            return False                               # flag and fragments disagree
        if cid != expect_context or any(d[0] != cid for d in data):
            return False
    # the receiver completed exactly these messages, nothing is left half-received, nothing was rejected
    got = Loopback.delivered(receiver, lb.threads)
    if len(got) != n_messages or receiver.dimse.message is not None:
        return False
    if not receiver.dul.event_queue.empty():
        return False
    return all(cid in (expect_context, None) for cid, prim in got)


def _chunks(names, per):
    return [names[i:i + per] for i in range(0, len(names), per)]


def _pick(group, which):
    """group[which] for a (symbolic) index: one path per member"""
    for i, name in enumerate(group):
        if which == i:
            return name
    out_of_bounds()


MSG_PER_SHARD = 4
_MSG_GROUP = shard("msgs", ["C-FIND-RQ", "C-STORE-RQ", "C-ECHO-RQ", "N-SET-RSP"])
N_MSG_GROUP = len(_MSG_GROUP)


def _msg_shards():
    return [{"msgs": g} for g in _chunks([m.name for m in spec.MESSAGES], MSG_PER_SHARD)]


@harness(
    "C16",
    shards=_msg_shards,
    timeout=(150, 600),
    findings=["C16-empty-data-set-flag"],
    functions=["dimse:DIMSEServiceProvider.send_msg", "dimse_messages:DIMSEMessage.primitive_to_message",
               "dimse_messages:DIMSEMessage.encode_msg", "dimse_messages:DIMSEMessage._generate_pdv_fragments",
               "dimse_messages:DIMSEMessage.decode_msg", "dimse_messages:DIMSEMessage.message_to_primitive",
               "dimse:DIMSEServiceProvider.receive_primitive", "pdu:P_DATA_TF.encode", "pdu:P_DATA_TF.decode"],
    bounds="each of the 23 DIMSE messages (shards of 4, the member picked by a solver-enumerated index) as a valid primitive; its data-set parameter (where PS3.7 "
           "gives the message one) absent / an in-memory buffer holding ANY 0..%d bytes (solver-symbolic content and "
           "length, so the empty buffer is included) / for C-STORE-RQ file-backed with any 0..%d bytes after the offset; "
           "peer maximum length 46 (several fragments per command set)" % (NDS, NDS),
    stubs=["Loopback: two real Associations, threads never started; a.dul/b.dul are Wires that record the PDVs, pass them "
           "through the real P-DATA-TF encoder and decoder and call the peer's real receive_primitive synchronously",
           "io.BytesIO in dimse_messages/dimse replaced by PyBytesIO (BytesIO subclass with a Python-level value, same "
           "truthiness) so symbolic data-set bytes are not realised",
           "dimse.threading replaced by a recorder (N-EVENT-REPORT indications are served on a new thread)",
           "dimse_messages.open replaced by a file object over the symbolic bytes (file-backed variant)"],
    outside="timing, the state machine and TCP between the two sides (C03-C08); data sets longer than the bound; "
            "STORE_RECV_CHUNKED_DATASET receive mode",
)
def msg_receivable(which: int, variant: int, ds: bytes) -> bool:
    """
    pre: 0 <= which < N_MSG_GROUP
    pre: 0 <= variant <= 2
    pre: len(ds) <= NDS
    pre: not kf.skip("C16-empty-data-set-flag", which=which, variant=variant, ds=ds)
    post: _ == True
    """
    msg = spec.BY_NAME[_pick(_MSG_GROUP, which)]
    with untraced():
        lb = Loopback([(CID, "1.2.840.10008.1.1", True, False)])
        prim = build_primitive(msg)
    if msg.data_set is None or variant == 0:
        pass                                            # no data-set parameter / left unset
    elif variant == 2 and msg.name == "C-STORE-RQ":
        prim._dataset_path = ("abstract-file", 3)      # (path, offset of the data set inside the file)
    else:
        setattr(prim, msg.data_set, PyBytesIO(ds))

    def fake_open(path, mode="r"):
        return _FileOver(b"\x00\x00\x00" + ds, 3 + _concrete_len(ds, NDS))

    saved_open = dm.__dict__.get("open", None)
    dm.open = fake_open
    try:
        with lb:
            lb.a.dimse.send_msg(prim, CID)
            return _judge(lb, lb.wire_ab, lb.b, CID)
    finally:
        if saved_open is None:
            del dm.open
        else:
            dm.open = saved_open


# ---------------------------------------------------------------------------------------------
# the public SCU API
# ---------------------------------------------------------------------------------------------
from pydicom.tag import Tag

_VERIF = "1.2.840.10008.1.1"
_FIND = "1.2.840.10008.5.1.4.1.2.1.1"
_MOVE = "1.2.840.10008.5.1.4.1.2.1.2"
_GET = "1.2.840.10008.5.1.4.1.2.1.3"
_CT = "1.2.840.10008.5.1.4.1.1.2"
_MPPS = "1.2.840.10008.3.1.2.3.3"          # an N-CREATE / N-SET SOP class
_PRINTJOB = "1.2.840.10008.5.1.1.14"       # an N-EVENT-REPORT / N-GET SOP class
_STGCOMMIT = "1.2.840.10008.1.20.1"        # an N-ACTION / N-EVENT-REPORT SOP class
_INST = "1.2.826.0.1.3680043.9.3811.1.2.3"

#       context id, abstract syntax, requestor is SCU, requestor is SCP
_API_CONTEXTS = [(1, _VERIF, True, False), (3, _FIND, True, False), (5, _MOVE, True, False), (7, _GET, True, False),
                 (9, _CT, True, False), (11, _MPPS, True, False), (13, _PRINTJOB, True, True),
                 (15, _STGCOMMIT, True, True)]

# name -> (context id, takes a Dataset argument, None allowed for it, call)
API_OPS = {
    "send_c_echo": (1, False, False, lambda a, d: a.send_c_echo(msg_id=4)),
    "send_c_cancel": (3, False, False, lambda a, d: a.send_c_cancel(4, query_model=_FIND)),
    "send_c_find": (3, True, False, lambda a, d: a.send_c_find(d, _FIND, msg_id=4)),
    "send_c_move": (5, True, False, lambda a, d: a.send_c_move(d, "DEST", _MOVE, msg_id=4)),
    "send_c_get": (7, True, False, lambda a, d: a.send_c_get(d, _GET, msg_id=4)),
    "send_c_store": (9, False, False, lambda a, d: a.send_c_store(_ct_instance(), msg_id=4)),
    "send_n_create": (11, True, True, lambda a, d: a.send_n_create(d, _MPPS, _INST, msg_id=4)),
    "send_n_set": (11, True, False, lambda a, d: a.send_n_set(d, _MPPS, _INST, msg_id=4)),
    "send_n_get": (13, False, False, lambda a, d: a.send_n_get([Tag(0x00100010)], _PRINTJOB, _INST, msg_id=4)),
    "send_n_delete": (13, False, False, lambda a, d: a.send_n_delete(_PRINTJOB, _INST, msg_id=4)),
    "send_n_action": (15, True, True, lambda a, d: a.send_n_action(d, 1, _STGCOMMIT, _INST, msg_id=4)),
    "send_n_event_report": (15, True, True, lambda a, d: a.send_n_event_report(d, 1, _STGCOMMIT, _INST, msg_id=4)),
}


def _ct_instance():
    from pydicom.dataset import FileMetaDataset

    ds = Dataset()
    ds.SOPClassUID = _CT
    ds.SOPInstanceUID = _INST
    ds.PatientID = "1"
    ds.file_meta = FileMetaDataset()
    ds.file_meta.TransferSyntaxUID = "1.2.840.10008.1.2"
    return ds


_API_GROUP = shard("ops", ["send_c_find", "send_n_action", "send_c_echo"])
N_API_GROUP = len(_API_GROUP)


def _api_shards():
    return [{"ops": g} for g in _chunks(list(API_OPS), 3)]


@harness(
    "C16",
    shards=_api_shards,
    timeout=(90, 300),
    findings=["C16-empty-data-set-flag-api"],
    functions=["association:Association.send_c_echo", "association:Association.send_c_cancel",
               "association:Association.send_c_find", "association:Association.send_c_get",
               "association:Association.send_c_move", "association:Association.send_c_store",
               "association:Association.send_n_action", "association:Association.send_n_create",
               "association:Association.send_n_delete", "association:Association.send_n_event_report",
               "association:Association.send_n_get", "association:Association.send_n_set",
               "dimse:DIMSEServiceProvider.send_msg", "dimse:DIMSEServiceProvider.receive_primitive",
               "dimse_messages:DIMSEMessage.primitive_to_message", "dimse_messages:DIMSEMessage.encode_msg",
               "dimse_messages:DIMSEMessage.decode_msg"],
    bounds="the 12 public send_* methods of an established requestor Association (shards of 3, solver-enumerated index); the Dataset "
           "argument (identifier / attribute list / modification list / action or event information) is: None where "
           "the method allows it, the empty Dataset(), or a Dataset with one element (solver-enumerated)",
    stubs=["Loopback as in msg_receivable; dimse_timeout = 0 so that the wait for a response returns at once; "
           "Association.abort replaced by a recorder (the DIMSE timeout reaction is not the subject)",
           "the request is judged at the peer's DIMSE provider; the responses are not produced"],
    outside="the peer's reaction; timing; datasets with more than one element (encoding is pydicom's)",
)
def api_receivable(which: int, dv: int) -> bool:
    """
    pre: 0 <= which < N_API_GROUP
    pre: 0 <= dv <= 2
    pre: not kf.skip("C16-empty-data-set-flag-api", which=which, dv=dv)
    post: _ == True
    """
    op = _pick(_API_GROUP, which)
    cid, takes_ds, none_ok, call = API_OPS[op]
    with untraced():
        lb = Loopback(_API_CONTEXTS)
        d = Dataset()
    if dv == 0:
        if none_ok:
            d = None
    elif dv == 2:
        d.PatientID = "1"
    with lb:
        call(lb.a, d)
        return _judge(lb, lb.wire_ab, lb.b, cid)


# ---------------------------------------------------------------------------------------------
# responses produced by the SCP service classes from handler results
# ---------------------------------------------------------------------------------------------
from pynetdicom import evt

_MPPS_RETRIEVE = "1.2.840.10008.3.1.2.3.4"

# name -> (request message, SOP class, event, handler result builder(ds))
SCP_OPS = {
    "C-FIND": ("C-FIND-RQ", _FIND, evt.EVT_C_FIND, "yield"),
    "N-GET": ("N-GET-RQ", _MPPS_RETRIEVE, evt.EVT_N_GET, "return"),
    "N-SET": ("N-SET-RQ", _MPPS, evt.EVT_N_SET, "return"),
    "N-CREATE": ("N-CREATE-RQ", _MPPS, evt.EVT_N_CREATE, "return"),
    "N-ACTION": ("N-ACTION-RQ", _STGCOMMIT, evt.EVT_N_ACTION, "return"),
    "N-EVENT-REPORT": ("N-EVENT-REPORT-RQ", _STGCOMMIT, evt.EVT_N_EVENT_REPORT, "return"),
}


_SCP_GROUP = shard("svcs", ["C-FIND", "N-GET", "N-ACTION"])
N_SCP_GROUP = len(_SCP_GROUP)


def _scp_shards():
    return [{"svcs": g} for g in _chunks(list(SCP_OPS), 3)]


@harness(
    "C16",
    shards=_scp_shards,
    timeout=(90, 300),
    functions=["association:Association._serve_request", "service_class:ServiceClass._c_find_scp",
               "service_class:ServiceClass._n_get_scp", "service_class:ServiceClass._n_set_scp",
               "service_class:ServiceClass._n_create_scp", "service_class:ServiceClass._n_action_scp",
               "service_class:ServiceClass._n_event_report_scp", "dimse:DIMSEServiceProvider.send_msg",
               "dimse:DIMSEServiceProvider.receive_primitive"],
    bounds="the acceptor's real service class serves one valid C-FIND / N-GET / N-SET / N-CREATE / N-ACTION / "
           "N-EVENT-REPORT request (shards of 3, solver-enumerated index); the bound handler answers Pending (C-FIND) or Success (N-*) with "
           "the empty Dataset() or a Dataset with one element (solver-enumerated); every response message the service "
           "class sends is judged at the requestor's DIMSE provider",
    stubs=["Loopback as in msg_receivable; the request primitive is handed to Association._serve_request directly"],
    outside="C-GET / C-MOVE / C-STORE SCPs (their response identifiers are built by pynetdicom from non-empty lists); "
            "handlers that raise or return invalid objects (C21)",
)
def scp_receivable(which: int, dv: int) -> bool:
    """
    pre: 0 <= which < N_SCP_GROUP
    pre: 1 <= dv <= 2
    post: _ == True
    """
    svc = _pick(_SCP_GROUP, which)
    rq_name, sop_class, event, style = SCP_OPS[svc]
    msg = spec.BY_NAME[rq_name]
    cid = 21
    with untraced():
        lb = Loopback([(cid, sop_class, True, True)])
        req = build_primitive(msg)
        for kw in ("AffectedSOPClassUID", "RequestedSOPClassUID"):
            if kw in msg.fields:
                setattr(req, kw, sop_class)
        if msg.data_set is not None:
            setattr(req, msg.data_set, PyBytesIO(b"\x10\x00\x20\x00\x02\x00\x00\x00\x31\x20"))   # PatientID = "1"
        req._context_id = cid
        answer = Dataset()
    if dv == 2:
        answer.PatientID = "1"

    if style == "yield":
        def handler(event):
            yield 0xFF00, answer
    else:
        def handler(event):
            return 0x0000, answer

    with untraced():
        lb.b.bind(event, handler)
    with lb:
        lb.b._serve_request(req, cid)
        msgs = _split_messages(lb.wire_ba.pdvs)
        if not msgs:
            return False
        return _judge(lb, lb.wire_ba, lb.a, cid, n_messages=len(msgs))


# ---------------------------------------------------------------------------------------------
# end-to-end reproducer for api_receivable counterexamples: two real AEs over a localhost socket, no stub
# ---------------------------------------------------------------------------------------------
_E2E_SCRIPT = r'''
import sys, time, json
sys.path.insert(0, sys.argv[1])
from pydicom.dataset import Dataset
from pynetdicom import AE, evt
op, dv = sys.argv[2], int(sys.argv[3])
FIND, MOVE, GET = "1.2.840.10008.5.1.4.1.2.1.1", "1.2.840.10008.5.1.4.1.2.1.2", "1.2.840.10008.5.1.4.1.2.1.3"
MPPS, STG, INST = "1.2.840.10008.3.1.2.3.3", "1.2.840.10008.1.20.1", "1.2.826.0.1.3680043.9.3811.1.2.3"
calls = []
def gen(event):
    calls.append(event.event.name)
    return
    yield
def ret(event):
    calls.append(event.event.name)
    return 0x0000, None
def mv(event):
    calls.append(event.event.name)
    yield ("127.0.0.1", 1)
    yield 0
scp = AE()
for uid in (FIND, MOVE, GET, MPPS, STG):
    scp.add_supported_context(uid, scu_role=True, scp_role=True)
handlers = [(evt.EVT_C_FIND, gen), (evt.EVT_C_GET, gen), (evt.EVT_C_MOVE, mv), (evt.EVT_N_CREATE, ret),
            (evt.EVT_N_SET, ret), (evt.EVT_N_ACTION, ret), (evt.EVT_N_EVENT_REPORT, ret)]
server = scp.start_server(("127.0.0.1", 0), block=False, evt_handlers=handlers)
port = server.server_address[1]
scu = AE()
scu.dimse_timeout = 3
for uid in (FIND, MOVE, GET, MPPS, STG):
    scu.add_requested_context(uid)
assoc = scu.associate("127.0.0.1", port)
assert assoc.is_established
d = Dataset()
if dv == 2:
    d.PatientID = "1"
if dv == 0 and op in ("send_n_create", "send_n_action", "send_n_event_report"):
    d = None
t0 = time.time()
if op == "send_c_find":
    out = list(assoc.send_c_find(d, FIND))
elif op == "send_c_get":
    out = list(assoc.send_c_get(d, GET))
elif op == "send_c_move":
    out = list(assoc.send_c_move(d, "DEST", MOVE))
elif op == "send_n_create":
    out = [assoc.send_n_create(d, MPPS, INST)]
elif op == "send_n_set":
    out = [assoc.send_n_set(d, MPPS, INST)]
elif op == "send_n_action":
    out = [assoc.send_n_action(d, 1, STG, INST)]
elif op == "send_n_event_report":
    out = [assoc.send_n_event_report(d, 1, STG, INST)]
else:
    raise SystemExit("op not covered by the end-to-end reproducer")
took = time.time() - t0
statuses = [("Status" in s and s.Status) for s, _ in out]
res = {"op": op, "handler_calls": calls, "statuses": statuses, "seconds": round(took, 1),
       "aborted": bool(assoc.is_aborted), "timed_out_without_response": statuses in ([], [False]) and took >= 2.5}
if assoc.is_established:
    assoc.release()
server.shutdown()
print("E2E" + json.dumps(res))
'''


def _e2e_api(args, sh):
    """replay an api_receivable counterexample through the public API over a real localhost connection"""
    import json as _json
    import shutil
    import subprocess
    import tempfile

    import vlib

    op = sh["ops"][int(args["which"])]
    with tempfile.NamedTemporaryFile("w", suffix=".py", delete=False) as f:
        f.write(_E2E_SCRIPT)
        path = f.name
    from vlib.e2e import runner as _runner; exe = _runner()
    try:
        p = subprocess.run(exe + [path, vlib.REPO, op, str(int(args["dv"]))], capture_output=True, text=True, timeout=120)
    finally:
        os.unlink(path)
    for line in p.stdout.splitlines():
        if line.startswith("E2E"):
            r = _json.loads(line[3:])
            return bool(r["timed_out_without_response"] and not r["handler_calls"]), _json.dumps(r)
    return False, "no result: " + (p.stderr or p.stdout)[-600:]


from vlib.h import REGISTRY as _REG  # noqa: E402

if "api_receivable" in _REG:
    _REG["api_receivable"].e2e = _e2e_api
